"""Load-time canonicalisation of the analysed AST (semantics-preserving, applied to every module before any rule runs):

  (a) `if not C: A else: B`            ->  `if C: B else: A`           (only when the else branch is not an elif chain; likewise
      `if a != b: A else: B` -> `if a == b: B else: A`, and `is not` / `not in`)
  (b) `x = x <op> e`                   ->  `x <op>= e`                 (x a name / attribute chain, e free of side conditions on x)
  (c) local variable names             ->  the names the rules were written against, aligned by binding order
                                           (vt/ref_locals.json: per function the locals of the reference tree in order of first binding)
  (d) `b == a` / `b != a`              ->  `a == b` when the reference tree writes that comparison as `a == b`  (ref_locals.json, "=="-lists)
  (e) `range(n)`                       ->  `range(0, n)`
  (f) a *new* local (not in the reference list) that is assigned once and used once, in the very next statement, is substituted
      into that statement (undoes "introduce a temporary")

  (g) `not (a == b)` -> `a != b` (likewise is / in and their negations); `if not not c` -> `if c`
  (h) `if a: (if b: X)` with no else on either  ->  `if a and b: X`
  (i) a guard `if T: continue` at the top level of a loop body  ->  `if not T: <rest of the body>`
  (j) `b > a` -> `a < b` when the reference tree writes that comparison as `a < b` (ref_locals.json, "<"-lists)

  (k) a module-level name that the reference tree does not have, bound exactly once in the module to an int / bytes / str literal
      (possibly signed or a constant expression of such literals), is substituted by its value where it is read
      (undoes "give the magic number a name")

(c) is a pure renaming: it is applied only when it is capture-free (the reference name is not otherwise used in the function).
The rules therefore see the same program whether a developer renamed `index` to `pos`, rewrote `x += 1` as `x = x + 1` or swapped
the arms of an `if`. Line numbers are untouched.
"""
from __future__ import annotations

import ast
import difflib
import json
import os
from typing import Dict, List, Optional

_REF: Optional[Dict[str, List[str]]] = None
REF_PATH = os.path.join(os.path.dirname(os.path.abspath(__file__)), "ref_locals.json")


def _ref() -> Dict[str, List[str]]:
    global _REF
    if _REF is None:
        try:
            with open(REF_PATH) as fh:
                _REF = json.load(fh)
        except FileNotFoundError:
            _REF = {}
    return _REF


def _same(a: ast.AST, b: ast.AST) -> bool:
    return ast.dump(a) == ast.dump(b).replace("Store()", "Load()") or ast.dump(a).replace("Store()", "Load()") == ast.dump(b).replace("Store()", "Load()")


def _cmp_key(l: ast.AST, r: ast.AST) -> str:
    return ast.dump(l) + " || " + ast.dump(r)


_NEG = {ast.Eq: ast.NotEq, ast.NotEq: ast.Eq, ast.Is: ast.IsNot, ast.IsNot: ast.Is, ast.In: ast.NotIn, ast.NotIn: ast.In}
_FLIP = {ast.Lt: ast.Gt, ast.Gt: ast.Lt, ast.LtE: ast.GtE, ast.GtE: ast.LtE}


def _negate(t: ast.AST) -> ast.AST:
    """Boolean-context negation of a test, in the simplest exact form."""
    if isinstance(t, ast.UnaryOp) and isinstance(t.op, ast.Not):
        return t.operand
    if isinstance(t, ast.Compare) and len(t.ops) == 1 and type(t.ops[0]) in _NEG:
        return ast.copy_location(ast.Compare(left=t.left, ops=[_NEG[type(t.ops[0])]()], comparators=t.comparators), t)
    return ast.copy_location(ast.UnaryOp(op=ast.Not(), operand=t), t)


def _strip_double_not(t: ast.AST) -> ast.AST:
    while isinstance(t, ast.UnaryOp) and isinstance(t.op, ast.Not) and isinstance(t.operand, ast.UnaryOp) and isinstance(t.operand.op, ast.Not):
        t = t.operand.operand
    return t


def _fold_guards(body: List[ast.stmt]) -> List[ast.stmt]:
    for i, st in enumerate(body):
        if isinstance(st, ast.If) and not st.orelse and len(st.body) == 1 and isinstance(st.body[0], ast.Continue) and i < len(body) - 1:
            rest = _fold_guards(body[i + 1:])
            new = ast.copy_location(ast.If(test=_negate(st.test), body=rest, orelse=[]), st)
            return body[:i] + [_merge_nested(new)]
    return body


def _merge_nested(node: ast.If) -> ast.If:
    while not node.orelse and len(node.body) == 1 and isinstance(node.body[0], ast.If) and not node.body[0].orelse:
        inner = node.body[0]
        vals = []
        for t in (node.test, inner.test):
            if isinstance(t, ast.BoolOp) and isinstance(t.op, ast.And):
                vals.extend(t.values)
            else:
                vals.append(t)
        node.test = ast.copy_location(ast.BoolOp(op=ast.And(), values=vals), node.test)
        node.body = inner.body
    return node


class _Canon(ast.NodeTransformer):
    def visit_UnaryOp(self, node: ast.UnaryOp):
        self.generic_visit(node)
        if isinstance(node.op, ast.Not) and isinstance(node.operand, ast.Compare) and len(node.operand.ops) == 1 and type(node.operand.ops[0]) in _NEG:
            return _negate(node.operand)
        return node

    def visit_For(self, node: ast.For):
        self.generic_visit(node)
        node.body = _fold_guards(node.body)
        return node

    def visit_While(self, node: ast.While):
        self.generic_visit(node)
        node.test = _strip_double_not(node.test)
        node.body = _fold_guards(node.body)
        return node

    def visit_Call(self, node: ast.Call):
        self.generic_visit(node)
        if isinstance(node.func, ast.Name) and node.func.id == "range" and len(node.args) == 1 and not node.keywords:
            node.args = [ast.copy_location(ast.Constant(0), node.args[0]), node.args[0]]
        return node

    def visit_If(self, node: ast.If):
        self.generic_visit(node)
        node.test = _strip_double_not(node.test)
        node = _merge_nested(node)
        t = node.test
        if node.orelse and not (len(node.orelse) == 1 and isinstance(node.orelse[0], ast.If)):
            if isinstance(t, ast.UnaryOp) and isinstance(t.op, ast.Not):
                node.test = t.operand
                node.body, node.orelse = node.orelse, node.body
            elif isinstance(t, ast.Compare) and len(t.ops) == 1 and isinstance(t.ops[0], (ast.NotEq, ast.IsNot, ast.NotIn)):
                # one canonical polarity for a two-armed if: positive operator first (`not a == b` and `a != b` are the same test)
                node.test = _negate(t)
                node.body, node.orelse = node.orelse, node.body
        return node

    def visit_Assign(self, node: ast.Assign):
        self.generic_visit(node)
        if len(node.targets) == 1 and isinstance(node.targets[0], (ast.Name, ast.Attribute)) and isinstance(node.value, ast.BinOp):
            tgt = node.targets[0]
            if _same(node.value.left, tgt) and isinstance(node.value.op, (ast.Add, ast.Sub, ast.Mult, ast.FloorDiv, ast.LShift, ast.RShift, ast.BitOr, ast.BitAnd, ast.BitXor)):
                # do not rewrite when the right operand mentions the target itself in a way that changes evaluation (x = x + f(x) is fine too)
                new = ast.AugAssign(target=tgt, op=node.value.op, value=node.value.right)
                return ast.copy_location(new, node)
        return node


def binding_order(fn: ast.FunctionDef) -> List[str]:
    """Local names of fn (not parameters) in source order of their first binding; nested defs excluded."""
    params = {a.arg for a in fn.args.posonlyargs + fn.args.args + fn.args.kwonlyargs}
    if fn.args.vararg:
        params.add(fn.args.vararg.arg)
    if fn.args.kwarg:
        params.add(fn.args.kwarg.arg)
    stores = []

    def walk(n):
        for c in ast.iter_child_nodes(n):
            if isinstance(c, (ast.FunctionDef, ast.AsyncFunctionDef, ast.ClassDef)):
                continue
            if isinstance(c, ast.Name) and isinstance(c.ctx, ast.Store):
                stores.append(c)
            if isinstance(c, ast.ExceptHandler) and c.name:
                pass
            walk(c)
    walk(fn)
    stores.sort(key=lambda x: (x.lineno, x.col_offset))
    out = []
    globs = {x for n in ast.walk(fn) if isinstance(n, (ast.Global, ast.Nonlocal)) for x in n.names}
    for s in stores:
        if s.id in params or s.id in globs or s.id in out:
            continue
        out.append(s.id)
    return out


def _rename(fn: ast.FunctionDef, mapping: Dict[str, str]) -> None:
    def walk(n):
        for c in ast.iter_child_nodes(n):
            if isinstance(c, (ast.FunctionDef, ast.AsyncFunctionDef, ast.ClassDef)):
                continue
            if isinstance(c, ast.Name) and c.id in mapping:
                c.id = mapping[c.id]
            walk(c)
    walk(fn)


def all_names(fn: ast.FunctionDef) -> set:
    return {n.id for n in ast.walk(fn) if isinstance(n, ast.Name)} | {a.arg for a in ast.walk(fn) if isinstance(a, ast.arg)}


def _inline_new_temps(fn: ast.FunctionDef, want: List[str]) -> None:
    """(f): new single-use temporaries consumed by the next statement are substituted back."""
    changed = True
    rounds = 0
    while changed and rounds < 8:
        changed = False
        rounds += 1
        counts_store: Dict[str, int] = {}
        counts_load: Dict[str, int] = {}
        for n in ast.walk(fn):
            if isinstance(n, ast.Name):
                if isinstance(n.ctx, ast.Store):
                    counts_store[n.id] = counts_store.get(n.id, 0) + 1
                else:
                    counts_load[n.id] = counts_load.get(n.id, 0) + 1
        for parent_node in ast.walk(fn):
            for fld in ("body", "orelse", "finalbody"):
                lst = getattr(parent_node, fld, None)
                if not isinstance(lst, list):
                    continue
                for i, st in enumerate(lst[:-1]):
                    if isinstance(st, ast.Assign) and len(st.targets) == 1 and isinstance(st.targets[0], ast.Name):
                        nm = st.targets[0].id
                        if nm in want or counts_store.get(nm) != 1 or counts_load.get(nm) != 1:
                            continue
                        nxt = lst[i + 1]
                        uses = [x for x in ast.walk(nxt) if isinstance(x, ast.Name) and x.id == nm and isinstance(x.ctx, ast.Load)]
                        if len(uses) != 1:
                            continue
                        # do not substitute into nested statement bodies of compound statements (only header expressions / simple statements)
                        if isinstance(nxt, (ast.For, ast.While, ast.If, ast.With, ast.Try, ast.FunctionDef, ast.ClassDef, ast.Match)):
                            hdr = getattr(nxt, "test", None) or getattr(nxt, "iter", None)
                            if hdr is None or not any(x is uses[0] for x in ast.walk(hdr)):
                                continue
                        val = st.value

                        class Sub(ast.NodeTransformer):
                            def visit_Name(self, node):
                                if node is uses[0]:
                                    return val
                                return node
                        lst[i + 1] = Sub().visit(nxt)
                        del lst[i]
                        changed = True
                        break
                if changed:
                    break
            if changed:
                break


def _drop_dead_constants(fn: ast.FunctionDef, want: List[str]) -> None:
    """`x = <constant>` for a new local x that is never read: no effect."""
    loads = {n.id for n in ast.walk(fn) if isinstance(n, ast.Name) and isinstance(n.ctx, ast.Load)}
    for parent_node in ast.walk(fn):
        for fld in ("body", "orelse", "finalbody"):
            lst = getattr(parent_node, fld, None)
            if not isinstance(lst, list):
                continue
            keep = []
            for st in lst:
                if isinstance(st, ast.Assign) and len(st.targets) == 1 and isinstance(st.targets[0], ast.Name) and isinstance(st.value, ast.Constant) \
                        and st.targets[0].id not in loads and st.targets[0].id not in want:
                    continue
                keep.append(st)
            if len(keep) != len(lst) and keep:
                lst[:] = keep


def _orient_boolops(fn: ast.FunctionDef, ref_bool: Dict[str, List[str]]) -> None:
    for n in ast.walk(fn):
        if isinstance(n, ast.BoolOp) and len(n.values) >= 2:
            dumps = [ast.dump(v) for v in n.values]
            key = type(n.op).__name__ + "|" + "|".join(sorted(dumps))
            want = ref_bool.get(key)
            if want and want != dumps and sorted(want) == sorted(dumps):
                by = {}
                for d, v in zip(dumps, n.values):
                    by.setdefault(d, []).append(v)
                n.values = [by[d].pop(0) for d in want]


def _orient_compares(fn: ast.FunctionDef, ref_cmp: List[str]) -> None:
    refset = set(ref_cmp)
    for n in ast.walk(fn):
        if isinstance(n, ast.Compare) and len(n.ops) == 1 and isinstance(n.ops[0], (ast.Eq, ast.NotEq)):
            l, r = n.left, n.comparators[0]
            if _cmp_key(l, r) not in refset and _cmp_key(r, l) in refset:
                n.left, n.comparators[0] = r, l


def _lt_key(op: ast.AST, l: ast.AST, r: ast.AST) -> str:
    return type(op).__name__ + "|" + ast.dump(l) + " || " + ast.dump(r)


def _orient_order_compares(fn: ast.FunctionDef, ref_lt: List[str]) -> None:
    refset = set(ref_lt)
    for n in ast.walk(fn):
        if isinstance(n, ast.Compare) and len(n.ops) == 1 and type(n.ops[0]) in _FLIP:
            l, r, op = n.left, n.comparators[0], n.ops[0]
            if _lt_key(op, l, r) not in refset and _lt_key(_FLIP[type(op)](), r, l) in refset:
                n.left, n.comparators[0], n.ops = r, l, [_FLIP[type(op)]()]


def normalise_locals(relpath: str, tree: ast.Module) -> int:
    ref = _ref()
    done = 0

    def visit(body, prefix):
        nonlocal done
        for st in body:
            if isinstance(st, ast.ClassDef):
                visit(st.body, prefix + st.name + ".")
            elif isinstance(st, ast.FunctionDef):
                key = f"{relpath}::{prefix}{st.name}"
                want = ref.get(key)
                if want is not None:
                    _drop_dead_constants(st, want)
                    for _round in range(3):
                        have = binding_order(st)
                        if have == want:
                            break
                        mapping = {}
                        sm = difflib.SequenceMatcher(a=have, b=want, autojunk=False)
                        for tag, i1, i2, j1, j2 in sm.get_opcodes():
                            if tag == "replace" and (i2 - i1) == (j2 - j1):
                                for k in range(i2 - i1):
                                    mapping[have[i1 + k]] = want[j1 + k]
                        names = all_names(st)
                        safe = {}
                        for old, new in mapping.items():
                            if new in names or new in safe.values() or old in want:
                                continue  # would capture another variable
                            safe[old] = new
                        if safe:
                            _rename(st, safe)
                            done += 1
                        before = ast.dump(st)
                        _inline_new_temps(st, want)
                        if not safe and ast.dump(st) == before:
                            break
                rc = ref.get(key + "::==")
                if rc:
                    _orient_compares(st, rc)
                rl = ref.get(key + "::<")
                if rl:
                    _orient_order_compares(st, rl)
                rb = ref.get(key + "::bool")
                if rb:
                    _orient_boolops(st, rb)
            elif isinstance(st, (ast.With, ast.Try, ast.If)):
                visit(st.body, prefix)
    visit(tree.body, "")
    return done


def _const_value(e: ast.AST):
    try:
        v = ast.literal_eval(e)
    except Exception:
        try:
            v = eval(compile(ast.Expression(e), "<const>", "eval"), {"__builtins__": {}}, {}) if all(
                isinstance(x, (ast.Constant, ast.BinOp, ast.UnaryOp, ast.operator, ast.unaryop, ast.Expression)) for x in ast.walk(e)) else None
        except Exception:
            return None
    return v if isinstance(v, (int, bytes, str)) and not isinstance(v, bool) else None


def _inline_new_module_constants(relpath: str, tree: ast.Module) -> None:
    known = set(_ref().get(f"{relpath}::module-names", []))
    if not known and f"{relpath}::module-names" not in _ref():
        return  # file unknown to the reference: leave as is
    binds: Dict[str, List[ast.AST]] = {}
    for st in tree.body:
        if isinstance(st, ast.Assign) and len(st.targets) == 1 and isinstance(st.targets[0], ast.Name):
            binds.setdefault(st.targets[0].id, []).append(st.value)
        elif isinstance(st, ast.AnnAssign) and isinstance(st.target, ast.Name) and st.value is not None:
            binds.setdefault(st.target.id, []).append(st.value)
    consts = {}
    for name, vals in binds.items():
        if name in known or len(vals) != 1:
            continue
        v = _const_value(vals[0])
        if v is not None:
            consts[name] = v
    if not consts:
        return
    # never rebound anywhere else in the module (any Store / Del / global / import of that name)
    for n in ast.walk(tree):
        if isinstance(n, ast.Name) and isinstance(n.ctx, (ast.Store, ast.Del)) and n.id in consts:
            par_ok = any(isinstance(st, (ast.Assign, ast.AnnAssign)) and (n in getattr(st, "targets", []) or n is getattr(st, "target", None)) for st in tree.body)
            if not par_ok:
                consts.pop(n.id, None)
        elif isinstance(n, (ast.Global, ast.Nonlocal)):
            for x in n.names:
                consts.pop(x, None)
        elif isinstance(n, ast.arg) and n.arg in consts:
            consts.pop(n.arg, None)
        elif isinstance(n, ast.alias) and (n.asname or n.name).split(".")[0] in consts:
            consts.pop((n.asname or n.name).split(".")[0], None)
    if not consts:
        return

    class Sub(ast.NodeTransformer):
        def visit_Name(self, node):
            if isinstance(node.ctx, ast.Load) and node.id in consts:
                return ast.copy_location(ast.Constant(consts[node.id]), node)
            return node
    for st in tree.body:
        if isinstance(st, (ast.FunctionDef, ast.ClassDef, ast.AsyncFunctionDef)):
            Sub().visit(st)
    tree.body = [st for st in tree.body if not (isinstance(st, ast.Assign) and len(st.targets) == 1 and isinstance(st.targets[0], ast.Name) and st.targets[0].id in consts)
                 and not (isinstance(st, ast.AnnAssign) and isinstance(st.target, ast.Name) and st.target.id in consts)]


def canonicalise(relpath: str, tree: ast.Module) -> ast.Module:
    _inline_new_module_constants(relpath, tree)
    tree = _Canon().visit(tree)
    normalise_locals(relpath, tree)
    ast.fix_missing_locations(tree)
    return tree


def build_reference(root: str) -> Dict[str, List[str]]:
    """Tool: compute the reference table from a tree (run by hand, result committed as vt/ref_locals.json)."""
    out = {}
    pk = os.path.join(root, "tlexport")
    for dirpath, dirnames, filenames in os.walk(pk):
        dirnames[:] = sorted(d for d in dirnames if d != "__pycache__")
        for fn in sorted(filenames):
            if not fn.endswith(".py"):
                continue
            path = os.path.join(dirpath, fn)
            rel = os.path.relpath(path, root)
            raw = ast.parse(open(path).read())
            out[f"{rel}::module-names"] = sorted({t.id for st in raw.body if isinstance(st, (ast.Assign, ast.AnnAssign))
                                                  for t in (st.targets if isinstance(st, ast.Assign) else [st.target]) if isinstance(t, ast.Name)})
            t = _Canon().visit(raw)

            def visit(body, prefix):
                for st in body:
                    if isinstance(st, ast.ClassDef):
                        visit(st.body, prefix + st.name + ".")
                    elif isinstance(st, ast.FunctionDef):
                        names = binding_order(st)
                        out[f"{rel}::{prefix}{st.name}"] = names
                        cmps = sorted({_cmp_key(n.left, n.comparators[0]) for n in ast.walk(st)
                                       if isinstance(n, ast.Compare) and len(n.ops) == 1 and isinstance(n.ops[0], (ast.Eq, ast.NotEq))})
                        if cmps:
                            out[f"{rel}::{prefix}{st.name}::=="] = cmps
                        lts = sorted({_lt_key(n.ops[0], n.left, n.comparators[0]) for n in ast.walk(st)
                                      if isinstance(n, ast.Compare) and len(n.ops) == 1 and type(n.ops[0]) in _FLIP})
                        if lts:
                            out[f"{rel}::{prefix}{st.name}::<"] = lts
                        bools = {}
                        for n in ast.walk(st):
                            if isinstance(n, ast.BoolOp) and len(n.values) >= 2:
                                dumps = [ast.dump(v) for v in n.values]
                                bools[type(n.op).__name__ + "|" + "|".join(sorted(dumps))] = dumps
                        if bools:
                            out[f"{rel}::{prefix}{st.name}::bool"] = bools
                    elif isinstance(st, (ast.With, ast.Try, ast.If)):
                        visit(st.body, prefix)
            visit(t.body, "")
    return out


if __name__ == "__main__":
    import sys
    ref = build_reference(sys.argv[1] if len(sys.argv) > 1 else "/repo")
    with open(REF_PATH, "w") as fh:
        json.dump(ref, fh, indent=0, sort_keys=True)
    print(len(ref), "functions with locals")
    # the guard inventory is taken from the same reference tree (after canonicalisation with the table just written)
    _REF = None
    from .rules import guards
    g = guards.build_reference(sys.argv[1] if len(sys.argv) > 1 else "/repo")
    with open(guards.REF_PATH, "w") as fh:
        json.dump(g, fh, indent=0, sort_keys=True)
    print(sum(len(v) for k, v in g.items() if not k.startswith("::")), "effect statements in the guard inventory;", len(g["::writes"]), "functions in the write inventory")

"""Load-time canonicalisation of the analysed AST (semantics-preserving, applied to every module before any rule runs):

  (a) `if not C: A else: B`            ->  `if C: B else: A`           (only when the else branch is not an elif chain)
  (b) `x = x <op> e`                   ->  `x <op>= e`                 (x a name / attribute chain, e free of side conditions on x)
  (c) local variable names             ->  the names the rules were written against, aligned by binding order
                                           (vt/ref_locals.json: per function the locals of the reference tree in order of first binding)
  (d) `b == a` / `b != a`              ->  `a == b` when the reference tree writes that comparison as `a == b`  (ref_locals.json, "=="-lists)
  (e) `range(n)`                       ->  `range(0, n)`
  (f) a *new* local (not in the reference list) that is assigned once and used once, in the very next statement, is substituted
      into that statement (undoes "introduce a temporary")

(c) is a pure renaming: it is applied only when it is capture-free (the reference name is not otherwise used in the function).
The rules therefore see the same program whether a developer renamed `index` to `pos`, rewrote `x += 1` as `x = x + 1` or swapped
the arms of an `if`. Line numbers are untouched.
"""
from __future__ import annotations

import ast
import difflib
import json
import os
from typing import Dict, List, Optional

_REF: Optional[Dict[str, List[str]]] = None
REF_PATH = os.path.join(os.path.dirname(os.path.abspath(__file__)), "ref_locals.json")


def _ref() -> Dict[str, List[str]]:
    global _REF
    if _REF is None:
        try:
            with open(REF_PATH) as fh:
                _REF = json.load(fh)
        except FileNotFoundError:
            _REF = {}
    return _REF


def _same(a: ast.AST, b: ast.AST) -> bool:
    return ast.dump(a) == ast.dump(b).replace("Store()", "Load()") or ast.dump(a).replace("Store()", "Load()") == ast.dump(b).replace("Store()", "Load()")


def _cmp_key(l: ast.AST, r: ast.AST) -> str:
    return ast.dump(l) + " || " + ast.dump(r)


class _Canon(ast.NodeTransformer):
    def visit_Call(self, node: ast.Call):
        self.generic_visit(node)
        if isinstance(node.func, ast.Name) and node.func.id == "range" and len(node.args) == 1 and not node.keywords:
            node.args = [ast.copy_location(ast.Constant(0), node.args[0]), node.args[0]]
        return node

    def visit_If(self, node: ast.If):
        self.generic_visit(node)
        t = node.test
        if isinstance(t, ast.UnaryOp) and isinstance(t.op, ast.Not) and node.orelse and not (len(node.orelse) == 1 and isinstance(node.orelse[0], ast.If)):
            node.test = t.operand
            node.body, node.orelse = node.orelse, node.body
        return node

    def visit_Assign(self, node: ast.Assign):
        self.generic_visit(node)
        if len(node.targets) == 1 and isinstance(node.targets[0], (ast.Name, ast.Attribute)) and isinstance(node.value, ast.BinOp):
            tgt = node.targets[0]
            if _same(node.value.left, tgt) and isinstance(node.value.op, (ast.Add, ast.Sub, ast.Mult, ast.FloorDiv, ast.LShift, ast.RShift, ast.BitOr, ast.BitAnd, ast.BitXor)):
                # do not rewrite when the right operand mentions the target itself in a way that changes evaluation (x = x + f(x) is fine too)
                new = ast.AugAssign(target=tgt, op=node.value.op, value=node.value.right)
                return ast.copy_location(new, node)
        return node


def binding_order(fn: ast.FunctionDef) -> List[str]:
    """Local names of fn (not parameters) in source order of their first binding; nested defs excluded."""
    params = {a.arg for a in fn.args.posonlyargs + fn.args.args + fn.args.kwonlyargs}
    if fn.args.vararg:
        params.add(fn.args.vararg.arg)
    if fn.args.kwarg:
        params.add(fn.args.kwarg.arg)
    stores = []

    def walk(n):
        for c in ast.iter_child_nodes(n):
            if isinstance(c, (ast.FunctionDef, ast.AsyncFunctionDef, ast.ClassDef)):
                continue
            if isinstance(c, ast.Name) and isinstance(c.ctx, ast.Store):
                stores.append(c)
            if isinstance(c, ast.ExceptHandler) and c.name:
                pass
            walk(c)
    walk(fn)
    stores.sort(key=lambda x: (x.lineno, x.col_offset))
    out = []
    globs = {x for n in ast.walk(fn) if isinstance(n, (ast.Global, ast.Nonlocal)) for x in n.names}
    for s in stores:
        if s.id in params or s.id in globs or s.id in out:
            continue
        out.append(s.id)
    return out


def _rename(fn: ast.FunctionDef, mapping: Dict[str, str]) -> None:
    def walk(n):
        for c in ast.iter_child_nodes(n):
            if isinstance(c, (ast.FunctionDef, ast.AsyncFunctionDef, ast.ClassDef)):
                continue
            if isinstance(c, ast.Name) and c.id in mapping:
                c.id = mapping[c.id]
            walk(c)
    walk(fn)


def all_names(fn: ast.FunctionDef) -> set:
    return {n.id for n in ast.walk(fn) if isinstance(n, ast.Name)} | {a.arg for a in ast.walk(fn) if isinstance(a, ast.arg)}


def _inline_new_temps(fn: ast.FunctionDef, want: List[str]) -> None:
    """(f): new single-use temporaries consumed by the next statement are substituted back."""
    changed = True
    rounds = 0
    while changed and rounds < 8:
        changed = False
        rounds += 1
        counts_store: Dict[str, int] = {}
        counts_load: Dict[str, int] = {}
        for n in ast.walk(fn):
            if isinstance(n, ast.Name):
                if isinstance(n.ctx, ast.Store):
                    counts_store[n.id] = counts_store.get(n.id, 0) + 1
                else:
                    counts_load[n.id] = counts_load.get(n.id, 0) + 1
        for parent_node in ast.walk(fn):
            for fld in ("body", "orelse", "finalbody"):
                lst = getattr(parent_node, fld, None)
                if not isinstance(lst, list):
                    continue
                for i, st in enumerate(lst[:-1]):
                    if isinstance(st, ast.Assign) and len(st.targets) == 1 and isinstance(st.targets[0], ast.Name):
                        nm = st.targets[0].id
                        if nm in want or counts_store.get(nm) != 1 or counts_load.get(nm) != 1:
                            continue
                        nxt = lst[i + 1]
                        uses = [x for x in ast.walk(nxt) if isinstance(x, ast.Name) and x.id == nm and isinstance(x.ctx, ast.Load)]
                        if len(uses) != 1:
                            continue
                        # do not substitute into nested statement bodies of compound statements (only header expressions / simple statements)
                        if isinstance(nxt, (ast.For, ast.While, ast.If, ast.With, ast.Try, ast.FunctionDef, ast.ClassDef, ast.Match)):
                            hdr = getattr(nxt, "test", None) or getattr(nxt, "iter", None)
                            if hdr is None or not any(x is uses[0] for x in ast.walk(hdr)):
                                continue
                        val = st.value

                        class Sub(ast.NodeTransformer):
                            def visit_Name(self, node):
                                if node is uses[0]:
                                    return val
                                return node
                        lst[i + 1] = Sub().visit(nxt)
                        del lst[i]
                        changed = True
                        break
                if changed:
                    break
            if changed:
                break


def _drop_dead_constants(fn: ast.FunctionDef, want: List[str]) -> None:
    """`x = <constant>` for a new local x that is never read: no effect."""
    loads = {n.id for n in ast.walk(fn) if isinstance(n, ast.Name) and isinstance(n.ctx, ast.Load)}
    for parent_node in ast.walk(fn):
        for fld in ("body", "orelse", "finalbody"):
            lst = getattr(parent_node, fld, None)
            if not isinstance(lst, list):
                continue
            keep = []
            for st in lst:
                if isinstance(st, ast.Assign) and len(st.targets) == 1 and isinstance(st.targets[0], ast.Name) and isinstance(st.value, ast.Constant) \
                        and st.targets[0].id not in loads and st.targets[0].id not in want:
                    continue
                keep.append(st)
            if len(keep) != len(lst) and keep:
                lst[:] = keep


def _orient_boolops(fn: ast.FunctionDef, ref_bool: Dict[str, List[str]]) -> None:
    for n in ast.walk(fn):
        if isinstance(n, ast.BoolOp) and len(n.values) >= 2:
            dumps = [ast.dump(v) for v in n.values]
            key = type(n.op).__name__ + "|" + "|".join(sorted(dumps))
            want = ref_bool.get(key)
            if want and want != dumps and sorted(want) == sorted(dumps):
                by = {}
                for d, v in zip(dumps, n.values):
                    by.setdefault(d, []).append(v)
                n.values = [by[d].pop(0) for d in want]


def _orient_compares(fn: ast.FunctionDef, ref_cmp: List[str]) -> None:
    refset = set(ref_cmp)
    for n in ast.walk(fn):
        if isinstance(n, ast.Compare) and len(n.ops) == 1 and isinstance(n.ops[0], (ast.Eq, ast.NotEq)):
            l, r = n.left, n.comparators[0]
            if _cmp_key(l, r) not in refset and _cmp_key(r, l) in refset:
                n.left, n.comparators[0] = r, l


def normalise_locals(relpath: str, tree: ast.Module) -> int:
    ref = _ref()
    done = 0

    def visit(body, prefix):
        nonlocal done
        for st in body:
            if isinstance(st, ast.ClassDef):
                visit(st.body, prefix + st.name + ".")
            elif isinstance(st, ast.FunctionDef):
                key = f"{relpath}::{prefix}{st.name}"
                want = ref.get(key)
                if want is not None:
                    _drop_dead_constants(st, want)
                    for _round in range(3):
                        have = binding_order(st)
                        if have == want:
                            break
                        mapping = {}
                        sm = difflib.SequenceMatcher(a=have, b=want, autojunk=False)
                        for tag, i1, i2, j1, j2 in sm.get_opcodes():
                            if tag == "replace" and (i2 - i1) == (j2 - j1):
                                for k in range(i2 - i1):
                                    mapping[have[i1 + k]] = want[j1 + k]
                        names = all_names(st)
                        safe = {}
                        for old, new in mapping.items():
                            if new in names or new in safe.values() or old in want:
                                continue  # would capture another variable
                            safe[old] = new
                        if safe:
                            _rename(st, safe)
                            done += 1
                        before = ast.dump(st)
                        _inline_new_temps(st, want)
                        if not safe and ast.dump(st) == before:
                            break
                rc = ref.get(key + "::==")
                if rc:
                    _orient_compares(st, rc)
                rb = ref.get(key + "::bool")
                if rb:
                    _orient_boolops(st, rb)
            elif isinstance(st, (ast.With, ast.Try, ast.If)):
                visit(st.body, prefix)
    visit(tree.body, "")
    return done


def canonicalise(relpath: str, tree: ast.Module) -> ast.Module:
    tree = _Canon().visit(tree)
    normalise_locals(relpath, tree)
    ast.fix_missing_locations(tree)
    return tree


def build_reference(root: str) -> Dict[str, List[str]]:
    """Tool: compute the reference table from a tree (run by hand, result committed as vt/ref_locals.json)."""
    out = {}
    pk = os.path.join(root, "tlexport")
    for dirpath, dirnames, filenames in os.walk(pk):
        dirnames[:] = sorted(d for d in dirnames if d != "__pycache__")
        for fn in sorted(filenames):
            if not fn.endswith(".py"):
                continue
            path = os.path.join(dirpath, fn)
            rel = os.path.relpath(path, root)
            t = _Canon().visit(ast.parse(open(path).read()))

            def visit(body, prefix):
                for st in body:
                    if isinstance(st, ast.ClassDef):
                        visit(st.body, prefix + st.name + ".")
                    elif isinstance(st, ast.FunctionDef):
                        names = binding_order(st)
                        out[f"{rel}::{prefix}{st.name}"] = names
                        cmps = sorted({_cmp_key(n.left, n.comparators[0]) for n in ast.walk(st)
                                       if isinstance(n, ast.Compare) and len(n.ops) == 1 and isinstance(n.ops[0], (ast.Eq, ast.NotEq))})
                        if cmps:
                            out[f"{rel}::{prefix}{st.name}::=="] = cmps
                        bools = {}
                        for n in ast.walk(st):
                            if isinstance(n, ast.BoolOp) and len(n.values) >= 2:
                                dumps = [ast.dump(v) for v in n.values]
                                bools[type(n.op).__name__ + "|" + "|".join(sorted(dumps))] = dumps
                        if bools:
                            out[f"{rel}::{prefix}{st.name}::bool"] = bools
                    elif isinstance(st, (ast.With, ast.Try, ast.If)):
                        visit(st.body, prefix)
            visit(t.body, "")
    return out


if __name__ == "__main__":
    import sys
    ref = build_reference(sys.argv[1] if len(sys.argv) > 1 else "/repo")
    with open(REF_PATH, "w") as fh:
        json.dump(ref, fh, indent=0, sort_keys=True)
    print(len(ref), "functions with locals")
